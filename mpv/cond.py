"""Path conditions as propositional formulas, and case analysis of values over them.

A formula is ('const', bool) | ('atom', text) | ('not', F) | ('and', [F]) | ('or', [F]); atoms are canonical texts of
atomic conditions with local names expanded (`small_field` -> `field.order.bit_length() // self.options.sec_param == 0`),
negative comparisons written positively under a 'not'.  Equivalence is decided by truth tables over the atoms, so
`if A: if B: X` and `if A and B: X`, or `if not (A and B)` and `else` of `if A and B`, describe the same condition.

value_cases() follows a local name through all its reaching definitions -- conditional expressions, definitions in
different branches, later conditional re-definitions that override earlier ones, and augmented assignments -- and
returns the values it can hold at a use together with the condition under which each holds."""
import ast
import copy
import itertools

from .core import cnorm, norm
from . import astq, sem
from .astq import reaching_definitions, position

TRUE = ('const', True)
FALSE = ('const', False)
INV = {ast.NotEq: ast.Eq, ast.IsNot: ast.Is, ast.NotIn: ast.In}


def atom(t):
    return ('atom', t)


def neg(f):
    if f[0] == 'const':
        return ('const', not f[1])
    if f[0] == 'not':
        return f[1]
    return ('not', f)


def _dedupe(fs, op):
    out, seen = [], set()
    for f in fs:
        parts = f[1] if f[0] == op else [f]        # flatten nested conjunctions / disjunctions
        for g in parts:
            k = fmt(g)
            if k not in seen:
                seen.add(k)
                out.append(g)
    return out


def conj(fs):
    fs = _dedupe([f for f in fs if f != TRUE], 'and')
    if any(f == FALSE for f in fs):
        return FALSE
    if not fs:
        return TRUE
    return fs[0] if len(fs) == 1 else ('and', list(fs))


def disj(fs):
    fs = _dedupe([f for f in fs if f != FALSE], 'or')
    if any(f == TRUE for f in fs):
        return TRUE
    if not fs:
        return FALSE
    return fs[0] if len(fs) == 1 else ('or', list(fs))


def atoms_of(f, out=None):
    out = set() if out is None else out
    if f[0] == 'atom':
        out.add(f[1])
    elif f[0] == 'not':
        atoms_of(f[1], out)
    elif f[0] in ('and', 'or'):
        for x in f[1]:
            atoms_of(x, out)
    return out


def evalf(f, val):
    if f[0] == 'const':
        return f[1]
    if f[0] == 'atom':
        return val[f[1]]
    if f[0] == 'not':
        return not evalf(f[1], val)
    if f[0] == 'and':
        return all(evalf(x, val) for x in f[1])
    return any(evalf(x, val) for x in f[1])


def equivalent(f, g, assume=TRUE):
    """f <=> g under the assumption, by truth table (at most 14 atoms)."""
    ats = sorted(atoms_of(f) | atoms_of(g) | atoms_of(assume))
    if len(ats) > 14:
        return fmt(f) == fmt(g)
    for bits in itertools.product([True, False], repeat=len(ats)):
        v = dict(zip(ats, bits))
        if evalf(assume, v) and evalf(f, v) != evalf(g, v):
            return False
    return True


def satisfiable(f):
    ats = sorted(atoms_of(f))
    if len(ats) > 14:
        return True
    return any(evalf(f, dict(zip(ats, bits))) for bits in itertools.product([True, False], repeat=len(ats)))


def implied(f):
    """atoms that hold on every valuation satisfying f"""
    return {a for a in atoms_of(f) if not satisfiable(conj([f, neg(atom(a))]))}


def refuted(f):
    """atoms that fail on every valuation satisfying f"""
    return {a for a in atoms_of(f) if not satisfiable(conj([f, atom(a)]))}


def fmt(f):
    if f[0] == 'const':
        return str(f[1])
    if f[0] == 'atom':
        return f[1]
    if f[0] == 'not':
        return f'not ({fmt(f[1])})'
    return '(' + (' and ' if f[0] == 'and' else ' or ').join(sorted(fmt(x) for x in f[1])) + ')'


# ------------------------------------------------------------------------------------------------- building
def formula(fn, test, use, pm, depth=0):
    """Formula of the expression `test` evaluated at `use` (flag variables and other local names expanded)."""
    e = test
    if isinstance(e, ast.NamedExpr):
        e = e.value
    if isinstance(e, ast.BoolOp):
        parts = [formula(fn, v, use, pm, depth) for v in e.values]
        return conj(parts) if isinstance(e.op, ast.And) else disj(parts)
    if isinstance(e, ast.UnaryOp) and isinstance(e.op, ast.Not):
        return neg(formula(fn, e.operand, use, pm, depth))
    e2 = sem.expand(fn, e, use, pm)
    if isinstance(e2, ast.NamedExpr):
        e2 = e2.value
    if depth < 4 and (isinstance(e2, ast.BoolOp) or (isinstance(e2, ast.UnaryOp) and isinstance(e2.op, ast.Not))):
        return formula(fn, e2, use, pm, depth + 1)       # the expansion of a flag variable exposed its structure
    if isinstance(e2, ast.Compare) and len(e2.ops) == 1 and depth < 6:
        # a conditional expression as an operand: X op (A if C else B)  ==  (C and X op A) or (not C and X op B)
        for side in ('left', 'right'):
            o = e2.left if side == 'left' else e2.comparators[0]
            if isinstance(o, ast.IfExp):
                def with_(v):
                    return ast.Compare(left=v if side == 'left' else e2.left, ops=e2.ops, comparators=[e2.comparators[0] if side == 'left' else v])
                c = formula(fn, o.test, use, pm, depth + 1)
                return disj([conj([c, formula(fn, with_(o.body), use, pm, depth + 1)]), conj([neg(c), formula(fn, with_(o.orelse), use, pm, depth + 1)])])
        l_, r_ = e2.left, e2.comparators[0]
        if isinstance(e2.ops[0], (ast.Is, ast.IsNot)) and isinstance(l_, ast.Constant) and isinstance(r_, ast.Constant) and (l_.value is None or r_.value is None):
            same = l_.value is None and r_.value is None
            return ('const', same == isinstance(e2.ops[0], ast.Is))
    if isinstance(e2, ast.Compare) and len(e2.ops) == 1 and type(e2.ops[0]) in INV:
        pos = ast.Compare(left=e2.left, ops=[INV[type(e2.ops[0])]()], comparators=e2.comparators)
        return neg(atom(cnorm(sem.symx(pos))))
    return atom(cnorm(sem.symx(e2)))


def context(fn, node, pm, stop=None):
    """Conjunction of the conditions (if statements, conditional expressions, short-circuit operands) governing node."""
    fs = []
    child = node
    for a in astq.ancestors(node, pm):
        if a is fn.node or a is stop:
            break
        if isinstance(a, ast.If):
            if any(child is s for s in a.body):
                fs.append(formula(fn, a.test, a, pm))
            elif any(child is s for s in a.orelse):
                fs.append(neg(formula(fn, a.test, a, pm)))
        elif isinstance(a, ast.IfExp):
            if child is a.body:
                fs.append(formula(fn, a.test, a, pm))
            elif child is a.orelse:
                fs.append(neg(formula(fn, a.test, a, pm)))
        elif isinstance(a, (ast.ListComp, ast.SetComp, ast.GeneratorExp, ast.DictComp)):
            # the element of a comprehension is evaluated only where the filters of its generators hold
            if not any(child is g for g in a.generators):
                for g in a.generators:
                    for c in g.ifs:
                        fs.append(formula(fn, c, a, pm))
        elif isinstance(a, ast.While):
            pass
        elif isinstance(a, (ast.FunctionDef, ast.AsyncFunctionDef, ast.Lambda)):
            break
        child = a
    # early exits: `if C: return/raise/continue/break` earlier in an enclosing block means not C afterwards
    x = astq.enclosing_stmt(node, pm)
    while x is not None and x is not fn.node:
        p = pm.get(id(x))
        if p is None:
            break
        for blk in astq._blocks(p):
            if any(x is s for s in blk):
                for s in blk:
                    if s is x:
                        break
                    if isinstance(s, ast.If) and not s.orelse and s.body and isinstance(s.body[-1], (ast.Return, ast.Raise, ast.Continue, ast.Break)):
                        fs.append(neg(formula(fn, s.test, s, pm)))
        if p is stop:
            break
        x = p
    return conj(fs)


def project(f, pred):
    """Replace atoms not selected by pred with an existential choice: keeps only the part of f about selected atoms.
    (Sound for comparing conditions that differ in irrelevant atoms: exists-quantification.)"""
    drop = sorted(a for a in atoms_of(f) if not pred(a))
    if not drop:
        return f
    alts = []
    for bits in itertools.product([True, False], repeat=min(len(drop), 8)):
        sub = dict(zip(drop, bits))
        alts.append(_subst(f, sub))
    return disj([_simplify(a) for a in alts])


def _subst(f, sub):
    if f[0] == 'atom':
        return ('const', sub[f[1]]) if f[1] in sub else f
    if f[0] == 'not':
        return ('not', _subst(f[1], sub))
    if f[0] in ('and', 'or'):
        return (f[0], [_subst(x, sub) for x in f[1]])
    return f


def _simplify(f):
    if f[0] == 'not':
        g = _simplify(f[1])
        return neg(g)
    if f[0] == 'and':
        return conj([_simplify(x) for x in f[1]])
    if f[0] == 'or':
        return disj([_simplify(x) for x in f[1]])
    return f


# ------------------------------------------------------------------------------------------------- value cases
def value_cases(fn, e, use, pm, depth=0):
    """[(formula, value expr, defining statement)]: the values expression e can take at `use`."""
    if depth > 6:
        return [(TRUE, e, use)]
    if isinstance(e, ast.IfExp):
        c = formula(fn, e.test, use, pm)
        out = []
        for f, v, st in value_cases(fn, e.body, use, pm, depth + 1):
            out.append((conj([c, f]), v, st))
        for f, v, st in value_cases(fn, e.orelse, use, pm, depth + 1):
            out.append((conj([neg(c), f]), v, st))
        return out
    if isinstance(e, ast.Name):
        ds = [d for d in reaching_definitions(fn.node, e.id, use, pm) if d[0] is not use]
        has_param = any(d[2] == 'param' for d in ds) and len(ds) > 1
        ds = [d for d in ds if d[2] != 'param' or len(ds) == 1]
        if ds and all(how in ('assign', 'aug') for _, _, how in ds) and all(isinstance(st, (ast.Assign, ast.AugAssign, ast.AnnAssign)) for st, _, _ in ds):
            ds = sorted(ds, key=lambda d: position(d[0]))
            before = [d for d in ds if position(d[0]) < position(use)]
            if len(before) != len(ds):
                return [(TRUE, e, use)]            # loop-carried definitions: not analysed
            out = []
            if has_param:
                # the caller's value, on the paths on which none of the (conditional) re-definitions runs
                eff0 = conj([neg(context(fn, d[0], pm)) for d in ds])
                if satisfiable(eff0):
                    out.append((eff0, e, fn.node))
            for i, (st, v, how) in enumerate(ds):
                c = context(fn, st, pm)
                # overridden by later definitions on the paths where those execute
                later = [context(fn, d[0], pm) for d in ds[i + 1:]]
                eff = conj([c] + [neg(l) for l in later])
                if not satisfiable(eff):
                    continue
                if how == 'aug':
                    prev = value_cases(fn, ast.Name(id=e.id, ctx=ast.Load()), st, pm, depth + 1)
                    for f2, v2, st2 in prev:
                        comb = ast.BinOp(left=copy.deepcopy(v2), op=st.op, right=copy.deepcopy(st.value))
                        out.append((conj([eff, f2]), comb, st))
                    continue
                if v is None or any(isinstance(x, ast.Name) and x.id == e.id for x in ast.walk(v)):
                    out.append((eff, e, st))
                    continue
                for f2, v2, st2 in value_cases(fn, v, st, pm, depth + 1):
                    out.append((conj([eff, f2]), v2, st2))
            return out or [(TRUE, e, use)]
    return [(TRUE, e, use)]


class _Repl(ast.NodeTransformer):
    def __init__(self, old, new):
        self.old, self.new = old, new

    def visit(self, n):
        if n is self.old:
            return copy.deepcopy(self.new)
        return super().visit(n)


def _replaced(e, old, new):
    """copy of e with the sub-node `old` (by identity) replaced by a copy of `new`"""
    memo = {id(old): old}          # keep the identity of `old` through the deep copy
    e2 = copy.deepcopy(e, memo)
    if e2 is old:
        return copy.deepcopy(new)
    return _Repl(old, new).visit(e2)


def expr_cases(fn, e, use, pm, depth=0, keep=()):
    """[(formula, expression)]: the expression e at `use` with conditional sub-expressions split into cases and local names
    replaced by the values they can hold (each with its condition), so that `d = A if C else B; f(d)`, `f(A if C else B)` and
    `if C: y = f(A) else: y = f(B)` all give {C: f(A), not C: f(B)}.  Names in `keep`, parameters and loop-carried names stay."""
    if depth > 8:
        return [(TRUE, e)]
    inner, bound = set(), set()           # nodes inside comprehensions / lambdas (not split), names they bind (not expanded)
    for x in ast.walk(e):
        if isinstance(x, (ast.ListComp, ast.SetComp, ast.DictComp, ast.GeneratorExp)):
            inner |= {id(y) for y in ast.walk(x) if y is not x}
            for g in x.generators:
                bound |= {y.id for y in ast.walk(g.target) if isinstance(y, ast.Name)}
        elif isinstance(x, ast.Lambda):
            inner |= {id(y) for y in ast.walk(x) if y is not x}
            bound |= {a.arg for a in x.args.args + x.args.kwonlyargs + x.args.posonlyargs}
    keep = tuple(set(keep) | bound)
    for x in ast.walk(e):
        if isinstance(x, ast.IfExp) and id(x) not in inner:
            c = formula(fn, x.test, use, pm)
            out = []
            for br, cc in ((x.body, c), (x.orelse, neg(c))):
                for f, v in expr_cases(fn, _replaced(e, x, br), use, pm, depth + 1, keep):
                    g = conj([cc, f])
                    if satisfiable(g):
                        out.append((g, v))
            return out
    for x in ast.walk(e):
        if isinstance(x, ast.Name) and isinstance(x.ctx, ast.Load) and x.id not in keep and getattr(x, '_xc', None) is None:
            cases = value_cases(fn, x, use, pm)
            if len(cases) == 1 and isinstance(cases[0][1], ast.Name) and cases[0][1].id == x.id:
                continue
            if any(isinstance(v, ast.Name) and v.id == x.id for _f, v, _s in cases):
                continue
            if any(v is None or any(isinstance(y, (ast.Await, ast.Yield, ast.NamedExpr)) for y in ast.walk(v)) for _f, v, _s in cases):
                continue
            out = []
            for f, v, st in cases:
                for f1, v1 in expr_cases(fn, v, st, pm, depth + 1, keep):          # the value, expanded at its own definition site
                    for f2, v2 in expr_cases(fn, _replaced(e, x, _mark(v1)), use, pm, depth + 1, keep):
                        g = conj([f, f1, f2])
                        if satisfiable(g):
                            out.append((g, v2))
            return out
    return [(TRUE, e)]


def _mark(v):
    """copy of v whose names are final (they denote values at their own definition site and are not expanded again at the use)"""
    v2 = copy.deepcopy(v)
    for y in ast.walk(v2):
        if isinstance(y, ast.Name):
            y._xc = True
    return v2
