"""SN rules: structural clauses of secure sorting and selection (property C29).

SN1  `_sort` and `np_sort` realise the same comparator schedule (np_sort's contract: "Same sorting network as in self._sort()"):
     the initialisation, the two loops, the index predicate, the partner offset and the update of (d, q, r) and p agree.
SN2  every compare-exchange reads two positions and writes exactly those two positions, the smaller element to the lower index.
SN3  np_sort / sorted work on a copy of their argument (in-place updates never reach the caller's data).
SN4  min / max / argmin / argmax: the comparison and the selection are oriented consistently, the index follows the value, the index
     of the second half is offset by the size of the first half, and ties select the first-half element (first occurrence).
"""
import ast
import copy

from .core import AnalysisError, iter_nodes, norm, cnorm
from . import astq, routes
from .astq import parents, calls_named, definitions, attr_tail, const_int

RT = 'runtime::Runtime.'


class _Subst2(ast.NodeTransformer):
    def __init__(self, env):
        self.env = env

    def visit_Name(self, n):
        return copy.deepcopy(self.env[n.id]) if isinstance(n.ctx, ast.Load) and n.id in self.env else n


class _Ren(ast.NodeTransformer):
    def __init__(self, m):
        self.m = m

    def visit_Name(self, n):
        return ast.copy_location(ast.Name(id=self.m.get(n.id, n.id), ctx=n.ctx), n)


def _ren(e, m):
    return cnorm(_Ren(m).visit(copy.deepcopy(e)))


def _schedule(fn):
    """Canonical description of the comparator schedule of a merge-exchange implementation."""
    node = fn.node
    roles = {}
    # n: the length being sorted
    for s in iter_nodes(node):
        if isinstance(s, ast.Assign) and len(s.targets) == 1 and isinstance(s.targets[0], ast.Name):
            v = norm(s.value)
            if v.startswith('len(') or '.shape[' in v:
                roles.setdefault(s.targets[0].id, 'N')
    for s in iter_nodes(node):
        if isinstance(s, ast.Assign) and len(s.targets) == 1 and isinstance(s.targets[0], ast.Name) and isinstance(s.value, ast.Call) \
                and attr_tail(s.value.func) == 'bit_length':
            roles[s.targets[0].id] = 'T'
    # the inner loop (over d) is the innermost loop around the index set of a round; the outer loop (over p) is the loop around it
    pm0 = parents(node)
    idx_sites = [x for x in iter_nodes(node) if (isinstance(x, ast.For) and isinstance(x.iter, ast.Call) and attr_tail(x.iter.func) == 'range'
                                                 and any(isinstance(c, ast.Call) and attr_tail(c.func) == 'if_swap' for c in ast.walk(x)))
                 or (isinstance(x, (ast.GeneratorExp, ast.ListComp)) and len(x.generators) == 1 and x.generators[0].ifs
                     and isinstance(x.generators[0].iter, ast.Call) and attr_tail(x.generators[0].iter.func) == 'range')]
    if len(idx_sites) != 1:
        return None, f'{len(idx_sites)} candidate index sets of a round found (expected one)'
    loops = [a for a in astq.ancestors(idx_sites[0], pm0) if isinstance(a, (ast.While, ast.For)) and a is not idx_sites[0]]
    if len(loops) < 2 or not isinstance(loops[0], ast.While):
        return None, 'the index set of a round is not inside the inner loop over d nested in the outer loop over p'
    inner, outer = loops[0], loops[1]

    def loop_exit_var(w):
        """(v, break statement or None): the loop runs while v is nonzero -- `while v:`, or `while True:` left by `if not v: break`"""
        if isinstance(w.test, ast.Name):
            return w.test.id, None
        if isinstance(w.test, ast.Constant) and w.test.value is True:
            brs = [s_ for s_ in w.body if isinstance(s_, ast.If) and not s_.orelse and len(s_.body) == 1 and isinstance(s_.body[0], ast.Break)]
            if len(brs) == 1:
                t = brs[0].test
                if isinstance(t, ast.UnaryOp) and isinstance(t.op, ast.Not) and isinstance(t.operand, ast.Name):
                    return t.operand.id, brs[0]
                if isinstance(t, ast.Compare) and len(t.ops) == 1 and isinstance(t.ops[0], ast.Eq) and isinstance(t.left, ast.Name) and const_int(t.comparators[0]) == 0:
                    return t.left.id, brs[0]
        return None, None
    dv, dbreak = loop_exit_var(inner)
    if dv is None:
        return None, 'the inner loop is not controlled by the schedule variable d'
    # the outer loop: `p = 2^(T-1); while p: ...; p >>= 1`  or  `for s in range(T-1, -1, -1): p = 1 << s`
    p_first = None
    p_expr_txt = None            # in the for-form: the expression p stands for (1 << s), folded back to p wherever it was expanded
    if isinstance(outer, ast.While):
        pv, _b = loop_exit_var(outer)
        if pv is None:
            return None, 'the outer loop is not controlled by the schedule variable p'
        inits = [s_ for s_ in iter_nodes(node) if isinstance(s_, ast.Assign) and len(s_.targets) == 1 and isinstance(s_.targets[0], ast.Name) and s_.targets[0].id == pv
                 and astq.position(s_) < astq.position(outer)]
        step = [s_ for s_ in outer.body if isinstance(s_, ast.AugAssign) and isinstance(s_.target, ast.Name) and s_.target.id == pv]
        if len(inits) != 1 or len(step) != 1 or not isinstance(step[0].op, ast.RShift) or const_int(step[0].value) != 1:
            return None, 'the outer loop does not halve p from its initial value'
        p_first = (inits[0].value, inits[0])
    else:
        rng = outer.iter
        first = outer.body[0] if outer.body else None
        top_s = None                  # the first (largest) exponent s
        if isinstance(rng, ast.Call) and attr_tail(rng.func) == 'range' and len(rng.args) == 3 and const_int(rng.args[1]) == -1 and const_int(rng.args[2]) == -1:
            top_s = rng.args[0]
        elif isinstance(rng, ast.Call) and isinstance(rng.func, ast.Name) and rng.func.id == 'reversed' and len(rng.args) == 1 and isinstance(rng.args[0], ast.Call) \
                and attr_tail(rng.args[0].func) == 'range' and len(rng.args[0].args) == 1:
            top_s = ast.BinOp(left=rng.args[0].args[0], op=ast.Sub(), right=ast.Constant(value=1))
        if not (top_s is not None
                and isinstance(outer.target, ast.Name) and isinstance(first, ast.Assign) and isinstance(first.targets[0], ast.Name)
                and isinstance(first.value, ast.BinOp) and isinstance(first.value.op, ast.LShift) and const_int(first.value.left) == 1
                and norm(first.value.right) == outer.target.id):
            return None, 'the outer loop does not enumerate p = 2^s for s = T-1 .. 0'
        pv = first.targets[0].id
        p_expr_txt = norm(first.value)
        p_first = (ast.BinOp(left=ast.Constant(value=1), op=ast.LShift(), right=top_s), outer)
    roles[pv] = 'P'
    roles[dv] = 'D'
    # (Q and R are told apart below, from the updates themselves: the next d is computed from q; r is the third variable)
    def compose(stmts, env, stop_at=None):
        """sequential composition of assignments to the schedule variables (tuple assignments are simultaneous)"""
        def ev(e):
            return _Subst2(env).visit(copy.deepcopy(e))
        for s_ in stmts:
            if s_ is stop_at:
                break
            if isinstance(s_, ast.Assign) and len(s_.targets) == 1:
                t_ = s_.targets[0]
                if isinstance(t_, ast.Tuple) and isinstance(s_.value, ast.Tuple) and len(t_.elts) == len(s_.value.elts) and all(isinstance(x, ast.Name) for x in t_.elts):
                    vals = [ev(v_) for v_ in s_.value.elts]
                    for x, v_ in zip(t_.elts, vals):
                        env[x.id] = v_
                elif isinstance(t_, ast.Name) and t_.id != pv:
                    env[t_.id] = ev(s_.value)
            elif isinstance(s_, ast.AugAssign) and isinstance(s_.target, ast.Name):
                env[s_.target.id] = ast.BinOp(left=env.get(s_.target.id, ast.Name(id=s_.target.id, ctx=ast.Load())), op=s_.op, right=ev(s_.value))
        return env
    # entry of the inner loop: the assignments of the outer body before it
    k_in = next(i_ for i_, s_ in enumerate(outer.body) if s_ is inner)
    entry = compose(outer.body[:k_in], {})
    # one step of the inner loop: the assignments of its body after the round (in a `while True` form: around the break)
    k_idx = next((i_ for i_, s_ in enumerate(inner.body) if s_ is idx_sites[0] or any(x is idx_sites[0] for x in ast.walk(s_))), -1)
    after = [s_ for s_ in inner.body[k_idx + 1:] if not (isinstance(s_, ast.If) and s_ is dbreak)]
    # statements between the round and the update that only serve the round (reads, exchanges) assign no schedule variable
    stepenv = compose(after, {})
    qv = rv = None
    svars = (set(stepenv) & set(entry)) - {pv}
    if dv in stepenv and dv in svars and len(svars) == 3:
        others = ({x.id for x in ast.walk(stepenv[dv]) if isinstance(x, ast.Name)} - {pv, dv}) & svars
        if len(others) == 1:
            qv = others.pop()
            rv = (svars - {dv, qv}).pop()
    if qv is None:
        return None, 'the updates of (d, q, r) were not found'
    roles[qv] = 'Q'
    roles[rv] = 'R'

    class _T:            # (the two "updates" in the form the rest of the function expects: tuples of expressions with their sites)
        def __init__(self, vals, site):
            self.value, self.site = ast.Tuple(elts=vals, ctx=ast.Load()), site
    tups = [_T([entry[dv], entry[qv], entry[rv]], inner), _T([stepenv[dv], stepenv[qv], stepenv[rv]], inner.body[-1])]
    from . import sem, cond
    from .linform import Lin, to_lin
    from .rules_ss import _xp_arith
    pm = parents(node)
    roles = {k: v for k, v in roles.items() if v != 'T'}          # temporaries (t, q0, ..) are expanded, not named

    class _FoldP(ast.NodeTransformer):
        def visit_BinOp(self, n):
            if p_expr_txt is not None and norm(n) == p_expr_txt:
                return ast.Name(id='P', ctx=ast.Load())
            return self.generic_visit(n)

    def canon(e):
        """canonical text: linear sub-expressions in normal form, everything else rebuilt around them"""
        e = _FoldP().visit(copy.deepcopy(e))
        l = to_lin(e, opaque=False)
        if l is not None:
            return repr(l)
        if isinstance(e, ast.BinOp):
            a_, b_ = canon(e.left), canon(e.right)
            if isinstance(e.op, (ast.BitAnd, ast.BitOr, ast.BitXor)) and b_ < a_:
                a_, b_ = b_, a_               # commutative on the integers of the schedule
            return f'({a_} {type(e.op).__name__} {b_})'
        if isinstance(e, ast.Compare) and len(e.ops) == 1:
            a, b = canon(e.left), canon(e.comparators[0])
            if isinstance(e.ops[0], (ast.Eq, ast.NotEq)) and b < a:
                a, b = b, a
            return f'({a} {type(e.ops[0]).__name__} {b})'
        if isinstance(e, ast.Tuple):
            return '(' + ', '.join(canon(x) for x in e.elts) + ')'
        if isinstance(e, ast.Call) and isinstance(e.func, ast.Attribute) and not e.keywords:
            return f'({canon(e.func.value)}).{e.func.attr}({", ".join(canon(a) for a in e.args)})'
        return cnorm(e)

    def val(e, use):
        """e with temporaries expanded (at `use`), the schedule variables named by their roles"""
        keep = set(roles)

        class X(ast.NodeTransformer):
            def visit_Name(self, n):
                if n.id in keep or not isinstance(n.ctx, ast.Load):
                    return n
                ds = [d for d in astq.reaching_definitions(node, n.id, use, pm) if d[2] == 'assign' and d[1] is not None]
                if len(ds) == 1 and not any(isinstance(y, ast.Name) and y.id == n.id for y in ast.walk(ds[0][1])) and isinstance(ds[0][0], ast.stmt) \
                        and isinstance(ds[0][0], ast.Assign) and isinstance(ds[0][0].targets[0], ast.Name):
                    return X2(ds[0][0]).visit(copy.deepcopy(ds[0][1]))
                return n

        def X2(st):
            x = X()
            return x
        return canon(_Ren(roles).visit(X().visit(copy.deepcopy(e))))
    out = {}
    out['P'] = 'from ' + val(p_first[0], p_first[1]) + ' halved down to 1'
    out['enter inner'] = val(tups[0].value, tups[0].site)
    out['step inner'] = val(tups[1].value, tups[1].site)
    # the index set {I} of a round, I = the lower position of a comparator: its range and its filter, in terms of I itself --
    # `for i in range(n - d): if i & p == r`, `for j in range(d, n): i = j - d; if i & p != r: continue`, (i for i in range(n - d) if ..)
    idx = None
    for s in iter_nodes(inner):
        if isinstance(s, ast.For) and isinstance(s.iter, ast.Call) and attr_tail(s.iter.func) == 'range' and isinstance(s.target, ast.Name):
            ex = [x for x in iter_nodes(s) if isinstance(x, ast.Assign) and isinstance(x.targets[0], ast.Tuple) and len(x.targets[0].elts) == 2
                  and all(isinstance(t_, ast.Subscript) for t_ in x.targets[0].elts)]
            if len(ex) != 1:
                continue
            v = s.target.id
            first = to_lin(_xp_arith(fn, ex[0].targets[0].elts[0].slice, ex[0], pm), opaque=False)
            if first is None or first.coef(v) != 1:
                continue
            c = first - Lin.sym(v)                                   # I = v + c
            rb = [to_lin(a, opaque=False) for a in s.iter.args]
            if any(b is None for b in rb) or len(rb) > 2:
                continue
            lo, hi = (Lin(0), rb[0]) if len(rb) == 1 else (rb[0], rb[1])
            f = cond.context(fn, ex[0], pm, stop=s)
            idx = (v, c, lo + c, hi + c, f)
        if isinstance(s, (ast.GeneratorExp, ast.ListComp)) and len(s.generators) == 1 and isinstance(s.generators[0].iter, ast.Call) \
                and attr_tail(s.generators[0].iter.func) == 'range' and s.generators[0].ifs and isinstance(s.generators[0].target, ast.Name) \
                and isinstance(s.elt, ast.Name) and s.elt.id == s.generators[0].target.id:
            g = s.generators[0]
            rb = [to_lin(a, opaque=False) for a in g.iter.args]
            if any(b is None for b in rb) or len(rb) > 2:
                continue
            lo, hi = (Lin(0), rb[0]) if len(rb) == 1 else (rb[0], rb[1])
            f = cond.conj([cond.formula(fn, c_, s, pm) for c_ in g.ifs])
            idx = (g.target.id, Lin(0), lo, hi, f)
    if idx is None:
        return None, 'the index set of a round (range(n - d) filtered by i & p == r) was not found'
    v, c, lo, hi, f = idx

    def atom_text(a):
        """an atom of the filter, rewritten over I (v = I - c) and the role names"""
        try:
            e = ast.parse(a, mode='eval').body
        except SyntaxError:
            return a
        sub = ast.parse(f'(I_ - ({repr(c)}))' if (c.t or c.c) else 'I_', mode='eval').body

        class S(ast.NodeTransformer):
            def visit_Name(self, n):
                return copy.deepcopy(sub) if n.id == v else n
        return canon(_Ren(roles).visit(S().visit(e)))

    def fmt(g):
        if g[0] == 'atom':
            return atom_text(g[1])
        if g[0] == 'not':
            return f'not {fmt(g[1])}'
        if g[0] == 'const':
            return str(g[1])
        return '(' + (' and ' if g[0] == 'and' else ' or ').join(sorted(fmt(x) for x in g[1])) + ')'

    def rl(l):
        return canon(_Ren(roles).visit(ast.parse(repr(l), mode='eval').body))
    out['indices'] = f'I in range({rl(lo)}, {rl(hi)}) if {fmt(f)}'
    return out, None


def rule_SN1(ctx, rep):
    fa, fb = ctx.model.func(RT + '_sort'), ctx.model.func(RT + 'np_sort')
    sa, ea = _schedule(fa)
    sb, eb = _schedule(fb)
    if sa is None or sb is None:
        raise AnalysisError(f'SN1: comparator schedule not recognised ({ea or eb})')
    for k in sorted(set(sa) | set(sb)):
        if sa.get(k) == sb.get(k):
            rep.ok('SN1', fb, f'schedule: {k}', f'both implementations: {sa.get(k)}', fb.node)
        else:
            rep.bad('SN1', fb, f'schedule: {k}', f'_sort has `{sa.get(k)}` but np_sort has `{sb.get(k)}`: the two no longer apply the same comparator network '
                    '(np_sort promises "Same sorting network as in self._sort()"), so at least one of them is not Batcher\'s merge-exchange network', fb.node)


def _one_level(fn, e, use, pm):
    """e, or -- for a name -- the value of its (kill-aware) last reaching plain definition, not expanded further."""
    if isinstance(e, ast.Name):
        ds = [d for d in astq.reaching_definitions(fn.node, e.id, use, pm) if d[2] == 'assign' and d[1] is not None and d[0] is not use]
        if ds:
            return max(ds, key=lambda d: astq.position(d[0]))[1]
    return e


def _less(c):
    """c = key(L) < key(R) (or <=, or the mirrored >, >=)  ->  (L text, R text, strict) else None."""
    if not (isinstance(c, ast.Compare) and len(c.ops) == 1):
        return None
    l, r, op = c.left, c.comparators[0], c.ops[0]
    if isinstance(op, (ast.Gt, ast.GtE)):
        l, r = r, l
    elif not isinstance(op, (ast.Lt, ast.LtE)):
        return None

    def arg(e):
        if isinstance(e, ast.Call) and isinstance(e.func, ast.Name) and e.func.id == 'key' and len(e.args) == 1:
            return norm(e.args[0])
        return norm(e)
    return arg(l), arg(r), isinstance(op, (ast.Lt, ast.Gt))


def rule_SN2(ctx, rep):
    # list version: a, b = x[i], x[i + d];  x[i], x[i + d] = if_swap(c, X, Y)   (lower := Y if c else X)
    fn = ctx.model.func(RT + '_sort')
    pm = parents(fn.node)
    sw = [c for c in iter_nodes(fn.node) if isinstance(c, ast.Call) and attr_tail(c.func) == 'if_swap']
    if len(sw) != 1:
        raise AnalysisError('SN2: the compare-exchange of _sort was not found')
    st = astq.enclosing_stmt(sw[0], pm)
    good = False
    why = 'unrecognised compare-exchange'
    if isinstance(st, ast.Assign) and isinstance(st.targets[0], ast.Tuple) and len(st.targets[0].elts) == 2 and len(sw[0].args) == 3:
        lo_t, hi_t = [norm(routes.xp(fn, x, st, pm)) for x in st.targets[0].elts]       # positions written, index temporaries expanded
        X, Y = [routes.xp(fn, a, st, pm) for a in sw[0].args[1:]]
        c = _less(routes.xp(fn, sw[0].args[0], st, pm))
        # positions read
        reads = {norm(X), norm(Y)}
        if reads != {lo_t, hi_t}:
            why = f'the exchange reads {sorted(reads)} but writes {sorted([lo_t, hi_t])}: elements are duplicated / lost (the result is not a permutation of the input)'
        elif c is None:
            why = 'the condition of the exchange is not a comparison of the two elements'
        else:
            L, R, strict = c
            # lower position receives Y when c (L < R) holds, X otherwise: ascending iff Y == L and X == R
            if norm(Y) == L and norm(X) == R:
                good, why = True, f'{lo_t} receives the smaller, {hi_t} the larger of the two elements read from these positions'
            else:
                why = 'the smaller element is moved to the higher index: the network sorts in the wrong direction / does not sort'
        # lower index really is the lower one: hi = lo + d
    (rep.ok if good else rep.bad)('SN2', fn, st, why)
    # array version: h = (key(b1) < key(b0)) * (b1 - b0); b0, b1 = b0 + h, b1 - h; update(I, b0), update(I + d, b1)
    fb = ctx.model.func(RT + 'np_sort')
    pmb = parents(fb.node)
    ups = [c for c in iter_nodes(fb.node) if isinstance(c, ast.Call) and attr_tail(c.func) == 'np_update']
    reads = {}
    from .rules_ss import _xp_arith
    for s in iter_nodes(fb.node):
        if isinstance(s, ast.Assign) and isinstance(s.value, ast.Subscript) and isinstance(s.targets[0], ast.Name) and isinstance(s.value.slice, ast.Tuple):
            reads[s.targets[0].id] = norm(_xp_arith(fb, s.value.slice.elts[-1], s, pmb))
    good, why = False, 'unrecognised compare-exchange in np_sort'
    if len(ups) == 2 and len(reads) >= 2:
        w = {}
        for u in ups:
            if len(u.args) == 3 and isinstance(u.args[1], ast.Tuple):
                w[norm(_xp_arith(fb, u.args[1].elts[-1], u, pmb))] = u.args[2]
        lo_idx = [k for k in w if '+' not in k]
        hi_idx = [k for k in w if '+' in k]
        if len(lo_idx) == 1 and len(hi_idx) == 1:
            lo_new = _one_level(fb, w[lo_idx[0]], ups[0], pmb)
            hi_new = _one_level(fb, w[hi_idx[0]], ups[1], pmb)
            lo_var = [k for k, v in reads.items() if v == lo_idx[0]]
            hi_var = [k for k, v in reads.items() if v == hi_idx[0]]
            if not lo_var or not hi_var:
                why = f'np_sort updates positions {sorted(w)} but reads positions {sorted(reads.values())}'
            else:
                lo_v, hi_v = lo_var[0], hi_var[0]
                # lo_new = lo + c*(hi - lo), hi_new = hi - c*(hi - lo)
                def split(e, base, sign):
                    if isinstance(e, ast.BinOp) and isinstance(e.op, ast.Add if sign > 0 else ast.Sub) and norm(e.left) == base:
                        return e.right
                    return None
                hl, hh = split(lo_new, lo_v, +1), split(hi_new, hi_v, -1)
                if hl is not None and hh is not None and norm(hl) == norm(hh):
                    hl = hh = _one_level(fb, hl, ups[0], pmb)
                if hl is None or hh is None or norm(hl) != norm(hh):
                    why = 'the two updated values are not lo + h and hi - h for one and the same h: the exchange does not preserve the pair'
                elif not (isinstance(hl, ast.BinOp) and isinstance(hl.op, ast.Mult)):
                    why = 'h is not <condition> * (hi - lo)'
                else:
                    a, b = _one_level(fb, hl.left, ups[0], pmb), _one_level(fb, hl.right, ups[0], pmb)
                    if not isinstance(a, ast.Compare):
                        a, b = b, a
                    c = _less(a)
                    if c is None or norm(b) not in (f'{hi_v} - {lo_v}',):
                        why = 'h is not <comparison> * (hi - lo)'
                    elif c[0] == hi_v and c[1] == lo_v:
                        good, why = True, 'the lower positions receive the smaller, the higher positions the larger elements of each pair (elementwise)'
                    else:
                        why = 'the exchange happens when the lower element is the smaller one: the network sorts in the wrong direction'
    (rep.ok if good else rep.bad)('SN2', fb, ups[0] if ups else fb.qualname, why, fb.node)
    # partner offset: both versions pair position i with i + d
    for f, txt in ((fn, None), (fb, None)):
        pass


def rule_SN3(ctx, rep):
    fb = ctx.model.func(RT + 'np_sort')
    pmb = parents(fb.node)
    arr = fb.params[1]
    fresh = {'np_copy', 'np_flatten'}
    first_up = [c for c in iter_nodes(fb.node) if isinstance(c, ast.Call) and attr_tail(c.func) == 'np_update']
    if not first_up:
        raise AnalysisError('SN3: np_update calls not found in np_sort')
    bad = []
    for st, v, how in definitions(fb.node, arr):
        if v is None or astq.position(st) > astq.position(first_up[0]) or any(x is first_up[0] or (isinstance(x, ast.Call) and attr_tail(x.func) == 'np_update') for x in ast.walk(st)):
            continue
        if isinstance(v, ast.Call) and attr_tail(v.func) in fresh:
            continue
        if isinstance(v, ast.Call) and attr_tail(v.func) == 'np_swapaxes':
            continue          # a view of the copy made before
        bad.append((st, v))
    if bad:
        rep.bad('SN3', fb, bad[0][0], f'np_sort updates in place an array obtained by {norm(bad[0][1])}, which shares its data with the argument: the caller\'s array is '
                'overwritten with sorted data although np_sort "returns new array"')
    else:
        rep.ok('SN3', fb, first_up[0], 'the in-place updates of the sorting network act on a copy (np_copy / np_flatten) of the argument')
    fs = ctx.model.func(RT + 'sorted')
    cp = [s for s in iter_nodes(fs.node) if isinstance(s, ast.Assign) and norm(s.targets[0]) == fs.params[1] and
          (norm(s.value) in (f'list({fs.params[1]})', f'{fs.params[1]}[:]') or (isinstance(s.value, ast.ListComp)))]
    srt = [c for c in iter_nodes(fs.node) if isinstance(c, ast.Call) and attr_tail(c.func) == '_sort']
    if cp and srt and astq.position(cp[-1]) < astq.position(srt[0]):
        rep.ok('SN3', fs, cp[0], 'sorted() sorts a copy of its argument')
    else:
        rep.bad('SN3', fs, srt[0] if srt else fs.qualname, 'sorted() sorts its argument in place instead of a new list', fs.node)
    rv = [c for c in iter_nodes(fs.node) if isinstance(c, ast.Call) and attr_tail(c.func) == 'reverse']
    if len(rv) == 1 and srt and astq.position(rv[0]) > astq.position(srt[0]) and \
            any(norm(i.test) == 'reverse' and br == 'body' for i, br in astq.enclosing_ifs(rv[0], parents(fs.node), stop=fs.node)):
        rep.ok('SN3', fs, rv[0], 'descending order = ascending network followed by a reversal, exactly when reverse is set')
    else:
        rep.bad('SN3', fs, fs.qualname, 'the reverse flag is not "reverse the ascending result when set"', fs.node)


def rule_SN4(ctx, rep):
    model = ctx.model
    for q, kind in (('min', 'min'), ('max', 'max'), ('_argmin', 'argmin'), ('_argmax', 'argmax')):
        fn = model.func(RT + q)
        pm = parents(fn.node)
        xs = fn.params[1]
        # first-half / second-half results: assigned from the recursive call on x[:n//2] / x[n//2:]
        first, second, ifirst, isecond = None, None, None, None
        for s in iter_nodes(fn.node):
            if isinstance(s, ast.Assign) and isinstance(s.value, ast.Call) and attr_tail(s.value.func) == q and s.value.args:
                a0 = s.value.args[0]
                if isinstance(a0, ast.Subscript) and isinstance(a0.slice, ast.Slice):
                    tg = s.targets[0]
                    names = [x.id for x in tg.elts] if isinstance(tg, ast.Tuple) else [tg.id]
                    half = 'first' if a0.slice.lower is None else ('second' if a0.slice.upper is None else None)
                    split_txt = norm(a0.slice.upper if half == 'first' else a0.slice.lower) if half else None
                    if half == 'first':
                        first, ifirst, split1 = names[-1], (names[0] if len(names) == 2 else None), split_txt
                    elif half == 'second':
                        second, isecond, split2 = names[-1], (names[0] if len(names) == 2 else None), split_txt
        if first is None or second is None:
            raise AnalysisError(f'SN4: the two recursive halves of {q} were not found')
        if split1 == split2:
            rep.ok('SN4', fn, f'{q}: halves', f'the halves x[:{split1}] and x[{split2}:] cover every element exactly once', fn.node)
        else:
            rep.bad('SN4', fn, f'{q}: halves', f'the recursion splits at {split1} and {split2}: elements are skipped or visited twice', fn.node)
        sels = [c for c in iter_nodes(fn.node) if isinstance(c, ast.Call) and attr_tail(c.func) == 'if_else' and len(c.args) == 3]
        if not sels:
            raise AnalysisError(f'SN4: selection in {q} not found')
        for c in sels:
            cmp_ = _less(_one_level(fn, c.args[0], c, pm))
            if cmp_ is None:
                rep.bad('SN4', fn, c, 'the selection is not governed by a comparison of the two candidates')
                continue
            L, R, strict = cmp_
            st, sf = norm(c.args[1]), norm(c.args[2])     # selected when the comparison holds / does not hold
            val = {first: 'first', second: 'second', ifirst: 'first', isecond: 'second'}
            if {L, R} != {first, second}:
                rep.bad('SN4', fn, c, f'the comparison is between {L} and {R}, not between the results of the two halves')
                continue
            is_index = st in (ifirst, isecond)
            if {val.get(st), val.get(sf)} != {'first', 'second'}:
                rep.bad('SN4', fn, c, f'the selection is between {st} and {sf}, not between the two halves')
                continue
            # when L < R holds: min -> L's half, max -> R's half
            want_true = val[L] if kind.endswith('min') else val[R]
            if val[st] != want_true:
                rep.bad('SN4', fn, c, f'when {L} < {R} the {"index of the " if is_index else ""}{val[st]}-half element is selected: {kind} returns the wrong extreme')
                continue
            # ties (comparison false with equal keys) select sf: must be the first-half element for arg-variants
            if kind.startswith('arg'):
                if not strict:
                    # with <=, a tie makes the comparison TRUE -> selects st
                    tie = val[st]
                else:
                    tie = val[sf]
                if tie != 'first':
                    rep.bad('SN4', fn, c, f'for equal keys the {"index of the " if is_index else ""}second-half element is selected: {kind} does not return the FIRST occurrence of the extreme')
                    continue
            rep.ok('SN4', fn, c, f'{kind}: comparison and selection oriented consistently' + ('; ties keep the first occurrence' if kind.startswith('arg') else ''))
        if kind.startswith('arg'):
            offs = [s for s in iter_nodes(fn.node) if isinstance(s, ast.AugAssign) and isinstance(s.op, ast.Add) and isinstance(s.target, ast.Name) and s.target.id == isecond]
            if len(offs) == 1 and norm(offs[0].value) == split2:
                rep.ok('SN4', fn, offs[0], 'the index found in the second half is offset by the size of the first half')
            else:
                rep.bad('SN4', fn, fn.qualname, f'the index of the second half is not offset by {split2}', fn.node)
            if len(sels) != 2:
                rep.bad('SN4', fn, fn.qualname, 'index and value are not selected by the same two-way selection', fn.node)
            elif norm(sels[0].args[0]) != norm(sels[1].args[0]):
                rep.bad('SN4', fn, sels[1], 'index and value are selected under different conditions: the index does not follow the value')


def rule_SN5(ctx, rep):
    """key discipline: in every selection / sorting function that takes a `key` argument, elements are compared through key(..)
    only -- a direct comparison of two elements orders them by value instead of by key."""
    model = ctx.model
    n = 0
    for k, fn in sorted(model.funcs.items()):
        if fn.module != 'runtime' or 'key' not in fn.params or fn.qualname.count('.') != 1:
            continue
        pm = parents(fn.node)
        for c in iter_nodes(fn.node):
            if not (isinstance(c, ast.Compare) and len(c.ops) == 1 and isinstance(c.ops[0], (ast.Lt, ast.LtE, ast.Gt, ast.GtE))):
                continue
            sides = [c.left, c.comparators[0]]
            if any(const_int(s) is not None for s in sides):
                continue                  # a length / index test
            if any(isinstance(s, ast.Call) and attr_tail(s.func) == 'len' for s in sides):
                continue
            n += 1
            if all(isinstance(s, ast.Call) and isinstance(s.func, ast.Name) and s.func.id == 'key' and len(s.args) == 1 for s in sides):
                rep.ok('SN5', fn, c, 'elements compared by key')
            else:
                rep.bad('SN5', fn, c, f'{fn.qualname.split(".")[-1]}(.., key=..) compares two elements directly ({norm(c)}) instead of their keys: with a key function the '
                        'elements are ordered by value, so the extreme by key is not returned')
    if n < 6:
        raise AnalysisError(f'SN5: only {n} element comparisons found in key-parameterised functions (expected >= 6)')


def _arith(e, env):
    """Value of a pure integer expression over the names in env (+, -, *, //, %, unary -): None if anything else occurs."""
    if isinstance(e, ast.Constant) and isinstance(e.value, int) and not isinstance(e.value, bool):
        return e.value
    if isinstance(e, ast.Name):
        return env.get(e.id)
    if isinstance(e, ast.UnaryOp) and isinstance(e.op, ast.USub):
        v = _arith(e.operand, env)
        return None if v is None else -v
    if isinstance(e, ast.BinOp) and isinstance(e.op, (ast.Add, ast.Sub, ast.Mult, ast.FloorDiv, ast.Mod, ast.RShift, ast.LShift)):
        a, b = _arith(e.left, env), _arith(e.right, env)
        if a is None or b is None:
            return None
        try:
            return {ast.Add: a + b, ast.Sub: a - b, ast.Mult: a * b, ast.FloorDiv: a // b if b else None, ast.Mod: a % b if b else None,
                    ast.RShift: a >> b if b >= 0 else None, ast.LShift: a << b if 0 <= b < 64 else None}[type(e.op)]
        except Exception:
            return None
    return None


def rule_SN6(ctx, rep):
    """min_max: after the pairwise pre-pass (pairs (i, n-1-i), i < n//2, smaller element first) the minimum is taken over a prefix and
    the maximum over a suffix of the list; for every length n the prefix must contain positions 0 .. ceil(n/2)-1 and the suffix positions
    floor(n/2) .. n-1 (the unpaired middle element of an odd-length list belongs to both)."""
    fn = ctx.model.func(RT + 'min_max')
    pm = parents(fn.node)
    lo_call = [c for c in iter_nodes(fn.node) if isinstance(c, ast.Call) and attr_tail(c.func) == 'min' and isinstance(c.func, ast.Attribute) and c.args]
    hi_call = [c for c in iter_nodes(fn.node) if isinstance(c, ast.Call) and attr_tail(c.func) == 'max' and isinstance(c.func, ast.Attribute) and c.args]
    if len(lo_call) != 1 or len(hi_call) != 1:
        raise AnalysisError('SN6: the min / max tournaments of min_max were not found')
    nname = [s.targets[0].id for s in iter_nodes(fn.node) if isinstance(s, ast.Assign) and isinstance(s.targets[0], ast.Name) and norm(s.value).startswith('len(')]
    if not nname:
        raise AnalysisError('SN6: the length variable of min_max was not found')
    nv = nname[0]
    # the pre-pass pairs i with -1-i for i in range(n//2), smaller first
    loops = [l for l in iter_nodes(fn.node) if isinstance(l, ast.For) and isinstance(l.iter, ast.Call) and attr_tail(l.iter.func) == 'range' and len(l.iter.args) == 1]
    okp = False
    if len(loops) == 1:
        from .rules_ss import _xp_arith as _xa
        cnt_ok = all(_arith(_xa(fn, loops[0].iter.args[0], loops[0], pm), {nv: n}) == n // 2 for n in range(1, 10))
        sw = [c for c in iter_nodes(loops[0]) if isinstance(c, ast.Call) and attr_tail(c.func) == 'if_swap' and len(c.args) == 3]
        if cnt_ok and len(sw) == 1:
            st = astq.enclosing_stmt(sw[0], pm)
            iv = norm(loops[0].target)
            from .linform import Lin, to_lin

            def pos_of(e):
                """canonical position of `x[<index>]` within the list of length n: 'lo' for i, 'hi' for n-1-i (also written -1-i)"""
                from .rules_ss import _xp_arith
                e = _one_level(fn, e, st, pm)
                if not (isinstance(e, ast.Subscript) and isinstance(e.value, ast.Name)):
                    return None
                l = to_lin(_xp_arith(fn, e.slice, st, pm), {}, opaque=False)
                if l is None:
                    return None
                if l == Lin.sym(iv):
                    return 'lo'
                if l == Lin.sym(iv) * -1 - 1 or l == Lin.sym(nv) - 1 - Lin.sym(iv):
                    return 'hi'
                return None
            c = _less(_one_level(fn, sw[0].args[0], st, pm))
            X, Y = pos_of(sw[0].args[1]), pos_of(sw[0].args[2])
            tg = [pos_of(t) for t in st.targets[0].elts] if isinstance(st, ast.Assign) and isinstance(st.targets[0], ast.Tuple) else []
            if c is not None and tg == ['lo', 'hi'] and {X, Y} == {'lo', 'hi'}:
                def side(txt):
                    try:
                        return pos_of(ast.parse(txt, mode='eval').body)
                    except SyntaxError:
                        return None
                L, R = side(c[0]), side(c[1])
                # if_swap(c, X, Y): the first result is Y if c else X.  c: key(L) < key(R) (or <=): the first result (stored at the lower
                # position) is the smaller element iff Y is L and X is R
                okp = Y is not None and Y == L and X == R
    if okp:
        rep.ok('SN6', fn, loops[0], 'pre-pass: pairs (i, n-1-i) for i < n//2, the smaller element of each pair moved to position i')
    else:
        rep.bad('SN6', fn, loops[0] if loops else fn.qualname, 'the pairwise pre-pass of min_max does not move the smaller element of each pair (i, n-1-i), i < n//2, to position i', fn.node)
    for call, kind in ((lo_call[0], 'min'), (hi_call[0], 'max')):
        a0 = call.args[0]
        if isinstance(a0, ast.Name):
            # a named half (`lower = x[:n - h]`): read through its single definition
            ds_ = [d for d in astq.reaching_definitions(fn.node, a0.id, call, pm) if d[2] == 'assign' and d[1] is not None]
            if len(ds_) == 1 and len(astq.reaching_definitions(fn.node, a0.id, call, pm)) == 1:
                a0 = ds_[0][1]
        good, why = False, 'the argument is not a slice of the pre-sorted list'
        if isinstance(a0, ast.Subscript) and isinstance(a0.slice, ast.Slice) and a0.slice.step is None:
            from .rules_ss import _xp_arith as _xa2
            lo, hi = a0.slice.lower, a0.slice.upper
            lo = _xa2(fn, lo, call, pm) if lo is not None else None          # bounds through arithmetic temporaries (half = n // 2)
            hi = _xa2(fn, hi, call, pm) if hi is not None else None
            bad_n = []
            for n in range(1, 12):
                l = 0 if lo is None else _arith(lo, {nv: n})
                h = n if hi is None else _arith(hi, {nv: n})
                if l is None or h is None:
                    bad_n = None
                    break
                need = set(range(0, (n + 1) // 2)) if kind == 'min' else set(range(n // 2, n))
                have = set(range(n)[l:h])
                if not need <= have:
                    bad_n.append(n)
            if bad_n is None:
                why = 'slice bounds are not arithmetic in the length'
            elif bad_n:
                why = (f'for n = {bad_n[0]} the {kind}imum is taken over x[{norm(a0.slice)}], which misses position '
                       f'{sorted((set(range(0, (bad_n[0] + 1) // 2)) if kind == "min" else set(range(bad_n[0] // 2, bad_n[0]))) - set(range(bad_n[0])[(0 if lo is None else _arith(lo, {nv: bad_n[0]})):(bad_n[0] if hi is None else _arith(hi, {nv: bad_n[0]}))]))[0]} '
                       f'where the {kind}imum can be after the pre-pass (the unpaired middle element for odd n)')
            else:
                good, why = True, f'the {kind}imum is taken over all positions that can hold it after the pre-pass (checked for n = 1..11 by evaluating the slice bounds)'
        (rep.ok if good else rep.bad)('SN6', fn, call, why)


# ---------------------------------------------------------------------------------- CP1
CP1_INPLACE_BY_CONTRACT = {
    'random::shuffle': 'documented to shuffle its argument in place, like random.shuffle',
}
MUTATORS = ('append', 'extend', 'pop', 'insert', 'reverse', 'sort', 'remove', 'clear')


def _param_mutations(fn, pm):
    """{parameter: first statement} for the parameters whose *incoming* object the function modifies in place: an element / slice
    store, an augmented element assignment or a mutating method call on a name that the caller's value can still reach there."""
    out = {}
    a = fn.node.args
    params = [x.arg for x in a.posonlyargs + a.args + a.kwonlyargs if x.arg not in ('self', 'cls')]
    for s in iter_nodes(fn.node):
        tg = []
        if isinstance(s, ast.Assign):
            for t in s.targets:
                tg += [tt for tt in (t.elts if isinstance(t, (ast.Tuple, ast.List)) else [t]) if isinstance(tt, ast.Subscript)]
        elif isinstance(s, ast.AugAssign) and isinstance(s.target, ast.Subscript):
            tg = [s.target]
        elif isinstance(s, ast.Delete):
            tg = [t for t in s.targets if isinstance(t, ast.Subscript)]
        elif isinstance(s, ast.Expr) and isinstance(s.value, ast.Call) and isinstance(s.value.func, ast.Attribute) and s.value.func.attr in MUTATORS:
            tg = [s.value.func]
        for t in tg:
            if isinstance(t.value, ast.Name) and t.value.id in params and t.value.id not in out:
                if any(d[2] == 'param' for d in astq.reaching_definitions(fn.node, t.value.id, s, pm)):
                    out[t.value.id] = s
    return out


def rule_CP1(ctx, rep, scope=None):
    """the caller's list is never modified: a public list operation of the runtime that works in place (element stores, slice
    stores, pop / append ..) does so on a copy -- on every path the parameter is re-bound (x = x[:], list(x), [x]) before the first
    in-place statement, and before it is handed to a private helper that modifies its argument in place (_sort, _convert, ..)."""
    model = ctx.model
    summ = {}
    for k, fn in model.funcs.items():
        if fn.module in ('runtime', 'random', 'statistics', 'seclists', 'mpctools') and isinstance(fn.node, (ast.FunctionDef, ast.AsyncFunctionDef)):
            summ[k] = (_param_mutations(fn, parents(fn.node)), fn)
    n = 0
    for k, (muts, fn) in sorted(summ.items()):
        name = fn.qualname.split('.')[-1]
        if name.startswith('_') or fn.module != 'runtime' and k not in CP1_INPLACE_BY_CONTRACT and fn.module not in ('random', 'statistics', 'mpctools'):
            continue
        if '.' in fn.qualname and not fn.qualname.startswith('Runtime.'):
            continue
        if scope is not None and name not in scope:
            continue
        if k in CP1_INPLACE_BY_CONTRACT:
            continue
        pm = parents(fn.node)
        a = fn.node.args
        params = [x.arg for x in a.posonlyargs + a.args + a.kwonlyargs if x.arg not in ('self', 'cls')]
        found = dict(muts)
        # handing the caller's object to a private helper that modifies that argument in place
        for c in iter_nodes(fn.node):
            if isinstance(c, ast.Call) and isinstance(c.func, ast.Attribute) and isinstance(c.func.value, ast.Name) and c.func.value.id == 'self' and c.func.attr.startswith('_'):
                tk = f'{fn.module}::Runtime.{c.func.attr}'
                if tk not in summ:
                    continue
                tmuts, tfn = summ[tk]
                ta = tfn.node.args
                tparams = [x.arg for x in ta.posonlyargs + ta.args if x.arg not in ('self', 'cls')]
                for i, arg in enumerate(c.args):
                    if i < len(tparams) and tparams[i] in tmuts and isinstance(arg, ast.Name) and arg.id in params and arg.id not in found:
                        if any(d[2] == 'param' for d in astq.reaching_definitions(fn.node, arg.id, c, pm)):
                            found[arg.id] = astq.enclosing_stmt(c, pm)
        touched = [p for p in params if any(isinstance(x, ast.Name) and x.id == p for s_ in iter_nodes(fn.node) for x in ([s_.value.func.value] if isinstance(s_, ast.Expr) and isinstance(s_.value, ast.Call) and isinstance(s_.value.func, ast.Attribute) and s_.value.func.attr in MUTATORS else []))]
        stores = [s for s in iter_nodes(fn.node) if (isinstance(s, ast.Assign) and any(isinstance(tt, ast.Subscript) and isinstance(tt.value, ast.Name) and tt.value.id in params
                                                                                         for t in s.targets for tt in (t.elts if isinstance(t, (ast.Tuple, ast.List)) else [t])))
                  or (isinstance(s, ast.AugAssign) and isinstance(s.target, ast.Subscript) and isinstance(s.target.value, ast.Name) and s.target.value.id in params)]
        helper_calls = [c for c in iter_nodes(fn.node) if isinstance(c, ast.Call) and isinstance(c.func, ast.Attribute) and isinstance(c.func.value, ast.Name)
                        and c.func.value.id == 'self' and f'{fn.module}::Runtime.{c.func.attr}' in summ and summ[f'{fn.module}::Runtime.{c.func.attr}'][0]
                        and any(isinstance(a_, ast.Name) and a_.id in params for a_ in c.args)]
        if not (stores or touched or helper_calls):
            if scope is not None:
                n += 1
                rep.ok('CP1', fn, fn.qualname, 'no in-place statement on a parameter, here or in a private helper it is handed to', fn.node)
            continue
        n += 1
        if found:
            p, st = sorted(found.items())[0]
            rep.bad('CP1', fn, st, f'the list passed as `{p}` is modified in place (here or in the private helper it is handed to) on a path on which `{p}` is still the '
                    'caller\'s object: the caller\'s data changes under its hands (and, with deferred evaluation, under later operations that still use it)')
        else:
            rep.ok('CP1', fn, (stores + [astq.enclosing_stmt(c, pm) for c in helper_calls])[0] if (stores or helper_calls) else fn.qualname,
                   'in-place work happens on a copy: the parameter is re-bound on every path before the first in-place statement', fn.node)
    return n


# ---------------------------------------------------------------------------------- IP1
def rule_IP1(ctx, rep):
    """no in-place operator on a share that still belongs to the caller: `x = await self.gather(x)` hands out the very share objects
    (field elements / field arrays, which implement `>>=`, `<<=`, `+=`, .. in place) held by the caller's secure objects; an
    augmented assignment to such a name, while the gathered object of a *parameter* can still reach it, changes the caller's value
    (the runtime's own convention: `a = a >> f  # NB: no in-place rshift!`).  A locally created operand (random bit, product) is
    the coroutine's own and may be updated in place."""
    model = ctx.model
    n = 0
    for k, fn in sorted(model.funcs.items()):
        if fn.module != 'runtime' or fn.kind not in ('pc', 'nopc'):
            continue
        pm = None
        for s in iter_nodes(fn.node):
            if not (isinstance(s, ast.AugAssign) and (isinstance(s.target, ast.Name) or (isinstance(s.target, ast.Subscript) and isinstance(s.target.value, ast.Name)))):
                continue
            pm = pm or parents(fn.node)
            nm = s.target.id if isinstance(s.target, ast.Name) else s.target.value.id
            if isinstance(s.target, ast.Subscript):
                # x[i] op= ..: the element is the coroutine's own once it was stored (x[i] = <new value>) earlier on the way here,
                # in this block or an enclosing one of the same loop iteration
                fresh = False
                x_ = s
                crossed = False          # left the loop iteration of the statement: element stores further out are other iterations'
                while x_ is not None and x_ is not fn.node and not fresh:
                    p_ = pm.get(id(x_))
                    if p_ is None:
                        break
                    for b_ in astq._blocks(p_):
                        if any(x_ is y for y in b_):
                            k_ = next(i_ for i_, y in enumerate(b_) if y is x_)
                            if not crossed and any(isinstance(y, ast.Assign) and any(norm(t_) == norm(s.target) for t_ in y.targets) for y in b_[:k_]):
                                fresh = True
                            # an earlier loop over all positions that stores a new value at each of them (x[i] = a * y[i] for every i)
                            for y in b_[:k_]:
                                if isinstance(y, ast.For) and not y.orelse:
                                    lv = None
                                    it = y.iter
                                    if isinstance(y.target, ast.Name) and isinstance(it, ast.Call) and isinstance(it.func, ast.Name) and it.func.id == 'range' and len(it.args) == 1:
                                        a0 = _xa_len(fn, it.args[0], y, pm)
                                        lv = y.target.id if a0 == f'len({nm})' else None
                                    elif isinstance(y.target, ast.Tuple) and len(y.target.elts) == 2 and isinstance(y.target.elts[0], ast.Name) and isinstance(it, ast.Call) \
                                            and isinstance(it.func, ast.Name) and it.func.id == 'enumerate' and len(it.args) == 1 and norm(it.args[0]) == nm:
                                        lv = y.target.elts[0].id
                                    if lv is not None and any(isinstance(z, ast.Assign) and any(isinstance(t_, ast.Subscript) and norm(t_.value) == nm and norm(t_.slice) == lv
                                                                                                for t_ in z.targets) for z in y.body):
                                        fresh = True
                    if isinstance(p_, (ast.For, ast.While, ast.AsyncFor)):
                        crossed = True
                    x_ = p_
                if fresh:
                    continue
                # hand-confirmed: the index range of the in-place statement lies inside a slice that was just replaced by fresh elements
                ex = IP1_FRESH_SLICE.get((fn.key, norm(s.target)))
                if ex is not None:
                    loops_ = [a_ for a_ in astq.ancestors(s, pm) if isinstance(a_, (ast.While, ast.For))]
                    if any(isinstance(y, ast.Assign) and isinstance(y.targets[0], ast.Subscript) and isinstance(y.targets[0].slice, ast.Slice)
                                                 and norm(y.targets[0].value) == nm and norm(y.targets[0].slice) == ex[0] and isinstance(y.value, ast.Await)
                                                 and astq.position(y) < astq.position(s) for loop_ in loops_ for y in iter_nodes(loop_)):
                        n += 1
                        rep.ok('IP1', fn, s, ex[1])
                        continue
            hit = None
            gathered = False
            for d in astq.reaching_definitions(fn.node, nm, s, pm):
                st = d[0]
                if not (isinstance(st, ast.Assign) and isinstance(st.value, ast.Await) and isinstance(st.value.value, ast.Call) and attr_tail(st.value.value.func) == 'gather'):
                    continue
                gathered = True
                # which argument of gather does the name receive?
                call = st.value.value
                tg = st.targets[0]
                args = list(call.args)
                src = None
                if isinstance(tg, ast.Name) and len(args) == 1:
                    src = args[0]
                elif isinstance(tg, (ast.Tuple, ast.List)) and len(tg.elts) == len(args):
                    for t_, a_ in zip(tg.elts, args):
                        if isinstance(t_, ast.Name) and t_.id == nm:
                            src = a_
                if isinstance(src, ast.Name) and _caller_owned(fn, src.id, st, pm):
                    hit = (st, src.id)
            if not gathered:
                continue
            n += 1
            if hit is not None:
                rep.bad('IP1', fn, s, f'`{norm(s)}` updates in place the share gathered from the parameter `{hit[1]}` ({norm(hit[0])[:60]}): the caller\'s secure object '
                        f'now holds the changed value (use `{nm} = {nm} {_OPTXT.get(type(s.op), "op")} ..`, which creates a new element)')
            else:
                rep.ok('IP1', fn, s, 'in-place update of a value the coroutine created itself')
    return n


def _xa_len(fn, e, use, pm):
    """text of a length expression with a temporary read through (`n = len(x)`)"""
    if isinstance(e, ast.Name):
        ds = [d for d in astq.reaching_definitions(fn.node, e.id, use, pm) if d[2] == 'assign' and d[1] is not None]
        if len(ds) == 1:
            return norm(ds[0][1])
    return norm(e)


IP1_FRESH_SLICE = {
    # (function, in-place target): (slice replaced earlier in the same loop iteration, why the target lies inside it)
    ('runtime::Runtime.prod', 'x[j]'): ('n % 2:', 'x[j] with j = (n%2 + i)//2 >= n%2 is one of the elements just replaced by the reshared products (x[n%2:] = await _reshare(h))'),
}


def _caller_owned(fn, name, use, pm, depth=0):
    """does the name (still) denote the caller's object or a shallow copy of it (x[:], list(x), [x], x.copy()): its elements -- and
    the shares gathered from them -- are the caller's"""
    if depth > 4:
        return False
    for d in astq.reaching_definitions(fn.node, name, use, pm):
        if d[2] == 'param':
            return True
        v = d[1]
        if v is None:
            continue
        inner = None
        if isinstance(v, ast.Subscript) and isinstance(v.slice, ast.Slice) and isinstance(v.value, ast.Name):
            inner = v.value.id
        elif isinstance(v, ast.Call) and isinstance(v.func, ast.Name) and v.func.id in ('list', 'tuple') and len(v.args) == 1 and isinstance(v.args[0], ast.Name):
            inner = v.args[0].id
        elif isinstance(v, ast.List) and len(v.elts) == 1 and isinstance(v.elts[0], ast.Name):
            inner = v.elts[0].id
        elif isinstance(v, ast.Call) and isinstance(v.func, ast.Attribute) and v.func.attr == 'copy' and isinstance(v.func.value, ast.Name):
            inner = v.func.value.id
        if inner is not None and isinstance(d[0], ast.stmt) and _caller_owned(fn, inner, d[0], pm, depth + 1):
            return True
    return False


_OPTXT = {ast.RShift: '>>', ast.LShift: '<<', ast.Add: '+', ast.Sub: '-', ast.Mult: '*', ast.Mod: '%', ast.FloorDiv: '//'}
