import asyncio, sys, os
from mpyc.runtime import mpc
from mpyc import asyncoro
secint = mpc.SecInt()
SLOW = os.environ.get('SLOW') == '1'
if os.environ.get('FIXMOD') == '1':   # control: give mod its own program counter
    import mpyc.runtime as rtm
    rtm.Runtime.mod = asyncoro.mpc_coro(rtm.Runtime.mod.__wrapped__)

@mpc.coroutine
async def P(x):
    await mpc.returnType(secint)
    y = await mpc.output(x)      # completes when messages arrive
    return x % 3                 # mod is mpc_coro_no_pc: its body runs later under the ambient pc

async def main():
    await mpc.start()
    x = mpc.input(secint(7), senders=0)
    r = P(x)
    try:
        for i in range(6):
            if SLOW and mpc.pid == 1 and i == 0:
                await asyncio.sleep(0.5)     # party 1 is slow once (local timing only)
            z = await asyncio.wait_for(mpc.output(x * x), 8)
            assert z == 49, z
        v = await asyncio.wait_for(mpc.output(r), 8)
        print(f'party {mpc.pid}: 7 % 3 ->', v, flush=True)
    except asyncio.TimeoutError:
        print(f'party {mpc.pid}: DEADLOCK (timeout) at i={i}', flush=True)
        os._exit(3)
    await mpc.shutdown()
mpc.run(main())
