# C37 (rule AW1): np_lsb without PRSS.  Before fix the call raised AttributeError (a Future was reshaped); run: PYTHONPATH=/repo python3-vt <this file> --no-prss
import numpy as np, sys
from mpyc.runtime import mpc
secint = mpc.SecInt(16)
async def main():
    await mpc.start()
    c = secint.array(np.array([3, 12, 7]))
    print('np_lsb', await mpc.output(mpc.np_lsb(c)))
    print('lsb', await mpc.output([mpc.lsb(a) for a in [secint(3), secint(12)]]))
    await mpc.shutdown()
mpc.run(main())
