"""C18 probe: does the value opened inside Runtime._mod depend on the secret a beyond a % b?"""
import sys, statistics
from mpyc.runtime import mpc
import mpyc.runtime as rtm
secint = mpc.SecInt()      # l=32, k=30
seen = []
orig_output = rtm.Runtime.output
def spy_output(self, x, *a, **kw):
    fut = orig_output(self, x, *a, **kw)
    if sys._getframe(1).f_code.co_name == '_mod':
        fut.add_done_callback(lambda f: seen.append(int(f.result().value) % secint.field.modulus))
    return fut
rtm.Runtime.output = spy_output
async def main():
    await mpc.start()
    b = 3
    res = {}
    for A in (1, 1 + 3 * 2**29):
        seen.clear()
        for _ in range(60):
            a = mpc.input(secint(A), senders=0)
            r = await mpc.output(a % b)
            assert r == A % b
        qs = [c // b for c in seen]
        res[A] = (min(qs), max(qs), statistics.mean(qs))
    if mpc.pid == 2:
        for A, (lo, hi, mean) in res.items():
            print(f'party 2 (not the input party): secret a={A} (a%3={A%3}): opened c//b in [{lo:.3e}, {hi:.3e}], mean {mean:.4e}', flush=True)
        d = abs(res[1][2] - res[1 + 3*2**29][2])
        print(f'party 2: means differ by {d:.3e}; 2^29 = {2**29:.3e}; mask r_divb < 2^30', flush=True)
    await mpc.shutdown()
mpc.run(main())
