import numpy as np
from mpyc.runtime import mpc
secint = mpc.SecInt(16)
async def main():
    await mpc.start()
    a = secint.array(np.array([3, 5, 7]))
    pl = np.array([1, 5, 9])
    r1 = await mpc.output(pl < a)
    r2 = await mpc.output(np.less(pl, a))
    r3 = await mpc.output(np.less(np.int64(10), secint(9)))
    r4 = await mpc.output(a > pl)
    print('pl < a      :', r1, 'expected', (pl < np.array([3,5,7])).astype(int))
    print('np.less(pl,a):', r2)
    print('np.less(10, secint(9)):', r3, 'expected 0')
    print('a > pl      :', r4)
    try:
        r5 = await mpc.output(np.floor_divide(np.int64(7), secint(2)))
        print('np.floor_divide(7, secint(2)):', r5, 'expected 3')
    except Exception as e:
        print('floor_divide raised', type(e).__name__, e)
    try:
        r6 = await mpc.output(np.remainder(np.int64(7), secint(4)))
        print('np.remainder(7, secint(4)):', r6, 'expected 3')
    except Exception as e:
        print('remainder raised', type(e).__name__, e)
    try:
        r6 = await mpc.output(np.left_shift(np.int64(3), secint(2)))
        print('np.left_shift(3, secint(2)):', r6, 'expected 12')
    except Exception as e:
        print('left_shift raised', type(e).__name__, e)
    await mpc.shutdown()
mpc.run(main())
