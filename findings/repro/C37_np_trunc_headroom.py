import numpy as np, time, sys
from mpyc.runtime import mpc
secfxp = mpc.SecFxp()   # l=32 f=16 k=30
async def main():
    await mpc.start()
    n = int(sys.argv[1]) if len(sys.argv) > 1 and sys.argv[1].isdigit() else 100000
    bad = 0
    t0 = time.time()
    for rep in range(3):
        a = secfxp.array(np.full(n, -181.5))
        b = secfxp.array(np.full(n, 180.5))
        c = await mpc.output(a * b)
        wrong = np.count_nonzero(np.abs(c + 32760.75) > 0.001)
        bad += wrong
    print(f'array product of {3*n} pairs (-181.5 * 180.5): {bad} wrong results; elapsed {time.time()-t0:.0f}s', flush=True)
    # scalar control
    sbad = 0
    for _ in range(2000):
        x = await mpc.output(secfxp(-181.5) * secfxp(180.5))
        sbad += abs(x + 32760.75) > 0.001
    print(f'scalar product x2000: {sbad} wrong', flush=True)
    await mpc.shutdown()
mpc.run(main())
