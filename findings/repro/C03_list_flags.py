"""C03: list operations marked every element of the result integral when the FIRST elements of the operands were
integral.  With the repair (all(...) over the operands) no element is wrongly marked, and the products below are right.
Run: python C03_list_flags.py [-M3]   -- exits 1 if a non-whole value is marked integral or a product is wrong."""
import sys
from mpyc.runtime import mpc
secfxp = mpc.SecFxp(32)


async def main():
    await mpc.start()
    x = [secfxp(3), secfxp(0.3)]
    y = [secfxp(1), secfxp(1)]
    u = [secfxp(2), secfxp(0.7)]
    bad = 0
    one, zero = secfxp(1), secfxp(0)
    for name, z in (('vector_add', mpc.vector_add(x, y)), ('vector_sub', mpc.vector_sub(x, y)), ('schur_prod', mpc.schur_prod(x, u)),
                    ('scalar_mul', mpc.scalar_mul(secfxp(2), x)), ('matrix_prod', mpc.matrix_prod([x], [[one, zero], [zero, one]])[0]),
                    ('if_else', mpc.if_else(secfxp(1), x, y)), ('input', mpc.input(x, senders=0)), ('_reshare', mpc._reshare(x))):
        vals = await mpc.output(list(z))
        marks = [a.integral for a in z]
        w = [(v, m) for v, m in zip(vals, marks) if m and v != int(v)]
        print(f'{name:12} values {vals} marked integral {marks}', 'WRONG MARK' if w else '')
        bad += bool(w)
    # a secure result that depends on the false mark: (0.3 + 1) * 0.7 computed with an exact shift instead of a truncation
    s = mpc.vector_add(x, y)[1] * secfxp(0.7)
    v = await mpc.output(s)
    print('(0.3 + 1) * 0.7 =', v, '' if abs(v - 0.91) < 0.001 else 'WRONG VALUE')
    bad += abs(v - 0.91) >= 0.001
    v = (await mpc.output(mpc.schur_prod(x, u)))[1]
    print('schur_prod: 0.3 * 0.7 =', v, '' if abs(v - 0.21) < 0.001 else 'WRONG VALUE')
    bad += abs(v - 0.21) >= 0.001
    await mpc.shutdown()
    return bad

sys.exit(1 if mpc.run(main()) else 0)
