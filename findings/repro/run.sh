#!/bin/sh
# Reproducers for the genuine defects that the static rules pointed at (see ../../DESIGN.md §6).
# These are NOT checks (the checks are static); they only document, against the real code,
# that each reported construct really breaks its property.
#   ./run.sh mod      -> C08: Runtime.mod (mpc_coro_no_pc) forks program counters from a Task step
#   ./run.sh roll     -> C08: Runtime.np_roll (mpc_coro_no_pc), secret shift (needs numpy: python3-vt)
#   ./run.sh pow      -> C18: np_pow(public int, secret exponent) mask bound 1<<(l+k)//(t+1)
# Env: SLOW=1 makes party 1 sleep once (a legal schedule); FIXMOD=1 / FIXROLL=1 give the
# coroutine its own program counter (the proposed repair) as the control experiment.
set -u
here=$(cd "$(dirname "$0")" && pwd)
work=$(mktemp -d /tmp/mpyc-repro.XXXXXX); trap 'rm -rf "$work"' EXIT; cd "$work"
launch() { # $1=python $2=script $3=m
  i=1; while [ $i -lt $3 ]; do (PYTHONPATH=/repo timeout 90 $1 "$here/$2" -M$3 -I$i --no-log > p$i.out 2>&1 &); i=$((i+1)); done
  PYTHONPATH=/repo timeout 90 $1 "$here/$2" -M$3 -I0 --no-log > p0.out 2>&1; echo "party 0 exit=$?"; sleep 2
  cat p*.out | grep -E '^party ' ; }
case "${1:-mod}" in
  mod)  for cfg in "0 0" "1 0" "1 1"; do set -- $cfg; echo "--- SLOW=$1 FIXMOD=$2"; SLOW=$1 FIXMOD=$2 launch /venv/bin/python C08_mod_nopc.py 3; done;;
  roll) for cfg in "0 0" "1 0" "1 1"; do set -- $cfg; echo "--- SLOW=$1 FIXROLL=$2"; SLOW=$1 FIXROLL=$2 launch python3-vt C08_np_roll_nopc.py 3; done;;
  pow)  launch python3-vt C18_np_pow_mask.py 7;;
  transfer) launch /venv/bin/python C07_transfer_nonreceiver.py 3;;
esac
