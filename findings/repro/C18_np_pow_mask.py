import asyncio, sys, os, inspect
from mpyc.runtime import mpc
import mpyc.runtime as rtm
import numpy as np
secint = mpc.SecFxp()   # l=32, f=16, k=30 by default
seen = []
orig_output = rtm.Runtime.output
def spy_output(self, x, *a, **kw):
    fut = orig_output(self, x, *a, **kw)
    caller = sys._getframe(1).f_code.co_name
    if caller == '_np_pow_public_int_base_secret_integral_exponent':
        fut.add_done_callback(lambda f: seen.append([int(v) >> 16 for v in f.result().value]))
    return fut
rtm.Runtime.output = spy_output

async def main():
    await mpc.start()
    l, k, t = secint.bit_length, mpc.options.sec_param, mpc.threshold
    for B in (0, 2**14 - 1):
        seen.clear()
        for _ in range(40):
            b = mpc.input(secint.array(np.array([B])), senders=0)
            y = mpc.np_pow(3, b)
            await mpc.output(y)
        cs = [c[0] for c in seen]
        if mpc.pid == 6:
            print(f'party 6 (not the input party) sees opened c=b+r for secret b={B}: '
                  f'min bitlen {min(c.bit_length() for c in cs)}, max bitlen {max(c.bit_length() for c in cs)}, '
                  f'mean {sum(cs)/len(cs):.3e}; intended mask size 2^(l+k)=2^{l+k}, t={t}', flush=True)
    await mpc.shutdown()
mpc.run(main())
