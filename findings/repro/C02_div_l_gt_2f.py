from mpyc.runtime import mpc
async def main():
    await mpc.start()
    for l, f in ((32,16),(32,15),(32,8),(64,32),(64,16),(16,8),(24,8)):
        secfxp = mpc.SecFxp(l, f)
        a, b = secfxp(7.5), secfxp(2.5)
        q = await mpc.output(a / b)
        r = await mpc.output(1 / b)
        print((l,f), '7.5/2.5 =', q, ' 1/2.5 =', r)
    await mpc.shutdown()
mpc.run(main())
