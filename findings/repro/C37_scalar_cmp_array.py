# C37 (rule OP7): comparisons with a secure scalar on the left and a secure array on the right.  Before fix a690d7f the six
# comparison operators raised (AssertionError / AttributeError) while + - * deferred to the array; run with numpy: PYTHONPATH=/repo python3-vt <this file>
import numpy as np
from mpyc.runtime import mpc
secint = mpc.SecInt(16)
c = secint.array(np.array([3, 12, 7]))
s = secint(10)
async def main():
    await mpc.start()
    print('c < s  ', await mpc.output(c < s))
    for name, f in (('s > c', lambda: s > c), ('s < c', lambda: s < c), ('s >= c', lambda: s >= c), ('s <= c', lambda: s <= c), ('s == c', lambda: s == c), ('s != c', lambda: s != c), ('s + c', lambda: s + c), ('s - c', lambda: s - c), ('s * c', lambda: s*c)):
        try:
            r = await mpc.output(f())
            print(name, r)
        except Exception as e:
            print(name, 'RAISES', type(e).__name__, e)
    await mpc.shutdown()
mpc.run(main())
