import asyncio, sys, os
from mpyc.runtime import mpc
from mpyc import asyncoro
import numpy as np
secint = mpc.SecInt()
SLOW = os.environ.get('SLOW') == '1'
if os.environ.get('FIXROLL') == '1':   # control: give np_roll its own program counter
    import mpyc.runtime as rtm
    rtm.Runtime.np_roll = asyncoro.mpc_coro(rtm.Runtime.np_roll.__wrapped__)

@mpc.coroutine
async def P(a, s):
    await mpc.returnType((type(a), a.shape))
    y = await mpc.output(s)      # completes when messages arrive
    return mpc.np_roll(a, s)     # secret shift: np_roll is mpc_coro_no_pc but forks an inner pc coroutine

async def main():
    await mpc.start()
    a = mpc.input(secint.array(np.arange(5)), senders=0)
    s = mpc.input(secint(2), senders=0)
    x = mpc.input(secint(7), senders=0)
    r = P(a, s)
    try:
        for i in range(6):
            if SLOW and mpc.pid == 1 and i == 0:
                await asyncio.sleep(0.5)
            z = await asyncio.wait_for(mpc.output(x * x), 8)
            assert z == 49, z
        v = await asyncio.wait_for(mpc.output(r), 8)
        print(f'party {mpc.pid}: roll ->', v, flush=True)
    except asyncio.TimeoutError:
        print(f'party {mpc.pid}: DEADLOCK (timeout) at i={i}', flush=True)
        os._exit(3)
    await mpc.shutdown()
mpc.run(main())
