"""C03: np_sum(a, initial=<non-integral>) on an integral secure fixed-point array is marked integral
although its value is not a whole number (needs numpy: run with python3-vt, single party suffices)."""
from mpyc.runtime import mpc
import numpy as np
secfxp = mpc.SecFxp()
async def main():
    await mpc.start()
    a = secfxp.array(np.array([1, 2, 3]))          # integral=True inferred from int dtype
    s = mpc.np_sum(a, initial=0.5)
    v = await mpc.output(s)
    print(f'np_sum([1,2,3], initial=0.5) = {v}; marked integral: {s.integral}')
    ok = not (s.integral and float(v) != int(v))
    # consequence: an operation trusting the mark gives garbage
    t = s * secfxp(0.5)
    w = await mpc.output(t)
    print(f'(that sum) * 0.5 = {w} (expected 3.25)')
    await mpc.shutdown()
    raise SystemExit(0 if ok and abs(w - 3.25) < 0.01 else 1)
mpc.run(main())
