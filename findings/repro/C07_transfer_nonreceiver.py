"""C07: transfer(obj, senders=<int>, receivers=<subset>) must give None to parties outside the receivers.
On the pinned tree the non-receivers raise IndexError (outdata[0] on an empty list)."""
import asyncio, os
from mpyc.runtime import mpc

async def main():
    await mpc.start()
    try:
        r = await asyncio.wait_for(mpc.transfer(f'from {mpc.pid}', senders=1, receivers=[0]), 10)
        print(f'party {mpc.pid}: transfer(senders=1, receivers=[0]) -> {r!r}', flush=True)
    except Exception as e:
        print(f'party {mpc.pid}: transfer(senders=1, receivers=[0]) raised {type(e).__name__}: {e}', flush=True)
    await mpc.shutdown()
mpc.run(main())
