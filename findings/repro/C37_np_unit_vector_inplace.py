# C37 (rule IP1): np_unit_vector(a, n) for a secure fixed-point a.  Before the fix the caller's a opened to 3/2**16 afterwards; run: PYTHONPATH=/repo python3-vt <this file>
import numpy as np
from mpyc.runtime import mpc
secfxp = mpc.SecFxp(32); secint = mpc.SecInt(16)
async def main():
    await mpc.start()
    a = secfxp(3)
    u = mpc.np_unit_vector(a, 5)
    print('unit vector', await mpc.output(u))
    print('a afterwards', await mpc.output(a))
    b = secfxp(3)
    v = mpc.unit_vector(b, 5)
    print('unit_vector (list)', await mpc.output(v), 'b afterwards', await mpc.output(b))
    await mpc.shutdown()
mpc.run(main())
