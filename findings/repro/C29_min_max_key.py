import sys
from mpyc.runtime import mpc
secint = mpc.SecInt()
async def main():
    await mpc.start()
    bad = 0
    for xs in ([-3, 1], [1, -3, 2], [2, -5, 4, 1], [0, 3, -4]):
        x = [secint(a) for a in xs]
        key = lambda a: a*a
        mn, mx = mpc.min_max(x, key=key)
        mn, mx = await mpc.output(mn), await mpc.output(mx)
        emn, emx = min(xs, key=lambda a: a*a), max(xs, key=lambda a: a*a)
        ok = (mn*mn, mx*mx) == (emn*emn, emx*emx)
        print(xs, 'min_max by a*a ->', (mn, mx), 'expected keys', (emn*emn, emx*emx), '' if ok else 'WRONG')
        bad += not ok
    await mpc.shutdown()
    return bad
sys.exit(1 if mpc.run(main()) else 0)
