#!/bin/sh
# import_benign.sh R<k> : developer tool (not a check). Confirms the behaviour-preserving refactorings of one sub-agent in its (idle)
# scratch worktree -- patch applies, pinned suite passes, numpy-enabled unittest run passes -- and copies them to /verif/benign/R<k>-<n>/.
r=$1
wt=/tmp/wt/$r; out=/tmp/wt/$r.out
cd $wt || exit 9
for k in 1 2 3 4 5 6; do
  [ -f $out/patch$k.diff ] || continue
  git checkout -q -- . ; git apply $out/patch$k.diff || { echo "$r-$k: PATCH DOES NOT APPLY"; continue; }
  s1=$(/venv/bin/python -m pytest -q -p no:cacheprovider -n 6 2>&1 | tail -1)
  s2=$(PYTHONPATH=$wt python3-vt -m unittest discover -s tests 2>&1 | tail -1)
  git checkout -q -- .
  case "$s1" in *"71 passed"*) ;; *) echo "$r-$k: suite: $s1"; continue;; esac
  case "$s2" in OK*) ;; *) echo "$r-$k: numpy suite: $s2"; continue;; esac
  d=/verif/benign/$r-$k; mkdir -p $d; cp $out/patch$k.diff $d/patch.diff
  /venv/bin/python - "$out/meta$k.json" "$d/meta.json" "$s1" "$s2" <<'P'
import json, sys
m = json.load(open(sys.argv[1]))
m['origin'] = 'independent sub-agent asked for behaviour-preserving refactorings (given only the area of code)'
m['confirmed_by_me'] = {'suite_with_patch': sys.argv[3], 'numpy_unittest_with_patch': sys.argv[4]}
json.dump(m, open(sys.argv[2], 'w'), indent=1)
P
  echo "$r-$k: imported ($s1 | $s2)"
done
