#!/bin/sh
# verify_seed.sh <worktree> <patch.diff> <demo command...>
# Developer tool (not a check): confirms a seeded change the way DESIGN.md §7 says: the patch applies to a
# scratch worktree of /repo, the pinned suite passes with it, the demonstration fails with it and passes without.
wt=$1; patch=$2; shift 2
cd "$wt" || exit 9
git checkout -q -- . && git apply "$patch" || { echo "patch does not apply"; exit 9; }
echo "-- suite with patch"
/venv/bin/python -m pytest -q -p no:cacheprovider -n 8 2>&1 | tail -1
echo "-- demo with patch"
( "$@" ) >/tmp/wt/demo_with.out 2>&1; echo "exit=$?"
git checkout -q -- .
echo "-- demo without patch"
( "$@" ) >/tmp/wt/demo_without.out 2>&1; echo "exit=$?"
