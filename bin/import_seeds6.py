#!/venv/bin/python
"""Developer tool (not a check): import the confirmed seeded changes of round-4 agents from /tmp/wt/S6-<P>.out into
/verif/seeded/<P>-<n>/ (patch.diff, demo.py, meta.json).  A change is imported only if its verify<k>.txt transcript shows
the pinned suite passing with the patch, the demonstration failing with it and passing without it."""
import glob, json, os, re, shutil, sys

VERIF = '/verif'
for P in sys.argv[1:]:
    out = f'/tmp/wt/S6-{P}.out'
    have = [int(os.path.basename(d).split('-')[1]) for d in glob.glob(f'{VERIF}/seeded/{P}-*')]
    n = max(have, default=0)
    for k in (1, 2, 3):
        vf = f'{out}/verify{k}.txt'
        if not os.path.exists(vf):
            continue
        tr = open(vf).read().splitlines()
        exits = [l for l in tr if l.startswith('exit=')]
        ok = any('71 passed' in l for l in tr) and len(exits) == 2 and exits[0] != 'exit=0' and exits[1] == 'exit=0' and exits[0] != 'exit=124'
        if not ok:
            print(f'{P} change {k}: NOT confirmed: {tr}')
            continue
        meta = json.load(open(f'{out}/meta{k}.json'))
        # skip if an identical patch is already in the corpus
        patch = open(f'{out}/patch{k}.diff').read()
        if any(open(p).read() == patch for p in glob.glob(f'{VERIF}/seeded/*/patch.diff')):
            print(f'{P} change {k}: already in corpus')
            continue
        n += 1
        d = f'{VERIF}/seeded/{P}-{n}'
        os.makedirs(d)
        shutil.copy(f'{out}/patch{k}.diff', f'{d}/patch.diff')
        shutil.copy(f'{out}/demo{k}.py', f'{d}/demo.py')
        if os.path.exists(f'{out}/run{k}.sh'):
            shutil.copy(f'{out}/run{k}.sh', f'{d}/run.sh')
        meta['property'] = P
        meta['origin'] = 'independent sub-agent (round 6) given only the property record and a scratch worktree'
        meta['confirmed_by_me'] = {'how': 'bin/verify_seed.sh protocol in the scratch worktree: git apply, pinned suite, demonstration with and without the patch',
                                   'transcript': tr}
        meta['detected_by'] = {}
        json.dump(meta, open(f'{d}/meta.json', 'w'), indent=1)
        print(f'{P} change {k} -> seeded/{P}-{n}')
